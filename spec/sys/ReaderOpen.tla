------------------------------ MODULE ReaderOpen ------------------------------
(***************************************************************************)
(* Opening a SpikeGLX binary whose length disagrees with its metadata       *)
(* (property C11).  spikeglx.Reader.open / Reader.ns / Reader.rl /          *)
(* OnlineReader.ns, and the compressed branch of Reader.open.               *)
(*                                                                         *)
(* A file is  bytes = q * F + r  bytes long (F = bytes per sample frame,    *)
(* q complete frames, r < F bytes of an incomplete last frame); its         *)
(* metadata announces `meta` frames (fileTimeSecs = meta / fs), or nothing  *)
(* at all while the acquisition is still running (Absent).                  *)
(*                                                                         *)
(* Implementation layer: the acquisition process (WriterAppend, WriterStop  *)
(* = end of acquisition or crash: every prefix length is a stopping point)  *)
(* and the three ways of opening, written with the branches of the code:    *)
(*   Open("offline")  Reader       : size check in bytes, fileTimeSecs      *)
(*                                   rewritten from the size, ns =          *)
(*                                   round(fileTimeSecs * fs), np.memmap    *)
(*                                   needs ns * F <= bytes                  *)
(*   Open("online")   OnlineReader : ns = bytes div F, same open()          *)
(*   Open("cbin")     Reader on an mtscomp file: frames of the chunk table  *)
(* Arithmetic is exact here (fileTimeSecs * fs is the rational bytes / F);  *)
(* what IEEE doubles do to it at 1e6..1e9 frames is measured on the real    *)
(* code (sparse files) and handed to the property layer by the trace spec.  *)
(* Variant "orig" = tree before the fix: commits (DESIGN F3 + the KeyError  *)
(* of the mismatch message on in-progress metadata), "fixed" = current.     *)
(* Deferred opening: `Reader(file, open=False)` may be constructed while    *)
(* the file is still being written (or before a truncated copy replaces     *)
(* it) and opened later; `cbytes` is the size the constructor saw.  The     *)
(* code before the third fix: commit compared the metadata with that cached *)
(* size (variant "cachedsize"; "orig" did so too): a file that matched its  *)
(* metadata at construction and changed afterwards was opened with the      *)
(* announced frame count (np.memmap raised after a shrink, stale count      *)
(* after growth).  "fixed" takes the size when the file is opened.          *)
(* Histories of one object (every kind of reader): constructed early       *)
(* (Construct), an open() that failed because the file (or its .ch) was    *)
(* away at that moment (OpenFails: the object is left as constructed), and *)
(* opened again after the file changed (Reopen: a recording in progress    *)
(* polled by re-opening, a copy replaced under a reader): the object then  *)
(* holds the duration the previous open() left in its metadata.            *)
(*                                                                         *)
(* Property layer: OpenSucceedsP, ExposedP, WithinFileP, DurationP, ReadP   *)
(* speak about the outcome of the constructor and the values handed out.    *)
(***************************************************************************)
EXTENDS Integers, Sequences, FiniteSets, TLC

CONSTANTS FSet,        \* frame sizes in bytes (2 * number of channels)
          MaxFrames,   \* the writer stops before (MaxFrames + 1) * F bytes
          MaxMeta,     \* announced frame counts 0..MaxMeta
          Variant      \* "fixed" | "orig"

Absent == -1           \* metadata of a running acquisition: no fileSizeBytes / fileTimeSecs yet

VARIABLES F, bytes, meta, kind, quiet,     \* the recording and how it is opened
          pc,                              \* "writing" | "closed" | "opened" | "raised"
          ns, rlf, ftsq, ftsw,             \* what the reader hands out after Open
          cbytes                           \* size seen by a constructor that ran early (open=False); -1: none

vars == <<F, bytes, meta, kind, quiet, pc, ns, rlf, ftsq, ftsw, cbytes>>

Min2(a, b) == IF a < b THEN a ELSE b
Max2(a, b) == IF a > b THEN a ELSE b

-----------------------------------------------------------------------------
(* implementation layer, as functions of (kind, F, q, r, meta, quiet)                          *)

\* int(np.round(x)) for x = q + r / f : round half to even
RoundHalfEven(q, r, f) ==
    IF 2 * r < f THEN q
    ELSE IF 2 * r > f THEN q + 1
    ELSE IF q % 2 = 0 THEN q ELSE q + 1

\* Reader.ns *before* open(): OnlineReader takes it from the size, Reader from the metadata
NsBefore(k, q, m) == IF k = "online" THEN q ELSE m

\* the size / shape check of open():  nc * ns * itemsize != nbytes   |   _raw.shape != (ns, nc)
\* (byte form, as the code writes it; frame counts reach 1e9 in the traces, beyond TLC's 32-bit products,
\* so the functions below use the equivalent frame form - ByteFormsAgree is checked on the whole box)
MismatchBytes(k, f, q, r, m) ==
    IF k = "cbin" THEN m # q
    ELSE NsBefore(k, q, m) * f # q * f + r
Mismatch(k, f, q, r, m) ==
    IF k = "cbin" THEN m # q
    ELSE ~(NsBefore(k, q, m) = q /\ r = 0)

\* fileTimeSecs * fs after open(), as <<whole frames, is-a-whole-number>>
ImplFts(k, f, q, r, m) ==
    IF ~Mismatch(k, f, q, r, m) THEN <<m, TRUE>>
    ELSE IF k = "cbin" THEN <<q, TRUE>>                              \* shape[0] / fs
    ELSE IF Variant = "orig" THEN <<q, r = 0>>                       \* st_size / itemsize / nc / fs
    ELSE <<q, TRUE>>                                                 \* (st_size // (itemsize * nc)) / fs

\* Reader.ns after open(): int(np.round(meta["fileTimeSecs"] * fs))
ImplNs(k, f, q, r, m) ==
    IF k = "online" THEN q
    ELSE IF ~Mismatch(k, f, q, r, m) THEN m
    ELSE IF k = "cbin" THEN q
    ELSE IF Variant = "orig" THEN RoundHalfEven(q, r, f)
    ELSE q

\* the exception paths of open(): the mismatch message reads meta['fileSizeBytes'] (orig), and
\* np.memmap refuses a shape that is longer than the file
ImplOutcome(k, f, q, r, m, qt) ==
    IF Variant = "orig" /\ k # "cbin" /\ m = Absent /\ ~qt /\ Mismatch(k, f, q, r, m) THEN "raised"
    ELSE IF k # "cbin" /\ ImplNs(k, f, q, r, m) > q THEN "raised"      \* ns * f > q * f + r,  r < f
    ELSE "opened"

\* deferred opening of an offline Reader: (cq, cr) = frames / trailing bytes the constructor saw (cq = -1: constructed when
\* opened).  Before the fix the mismatch test used that cached size, the frame count always came from the size at open().
Stale(k, cq) == Variant \in {"orig", "cachedsize"} /\ k = "offline" /\ cq >= 0
ImplNsD(k, f, q, r, m, cq, cr) ==
    IF Stale(k, cq) THEN (IF m = cq /\ cr = 0 THEN m ELSE q) ELSE ImplNs(k, f, q, r, m)
ImplFtsD(k, f, q, r, m, cq, cr) ==
    IF Stale(k, cq) THEN (IF m = cq /\ cr = 0 THEN <<m, TRUE>> ELSE <<q, TRUE>>) ELSE ImplFts(k, f, q, r, m)
ImplOutcomeD(k, f, q, r, m, qt, cq, cr) ==
    IF Stale(k, cq) THEN (IF ImplNsD(k, f, q, r, m, cq, cr) > q THEN "raised" ELSE "opened") ELSE ImplOutcome(k, f, q, r, m, qt)

-----------------------------------------------------------------------------
(* the state machine *)

Kinds == {"offline", "online", "cbin"}

Init == /\ F \in FSet
        /\ bytes = 0
        /\ kind \in Kinds
        /\ quiet \in BOOLEAN
        /\ meta \in (0..MaxMeta) \cup (IF kind = "online" THEN {Absent} ELSE {})
        /\ pc = "writing"
        /\ ns = -1 /\ rlf = -1 /\ ftsq = -1 /\ ftsw = TRUE /\ cbytes = -1

\* Reader(file, open=False) while the file is still being written
\* (explored at frame boundaries and one byte on either side of them: the code only ever looks at the size through
\*  `size = ns * F` and `size div F`)
NearFrame(b) == b % F \in {0, 1, F - 1}
\* (histories of the readers whose open() never had the constructor's size to look at - OnlineReader, compressed files -
\*  are explored on small frames only)
HistoryExplored == kind = "offline" \/ F <= 10
Construct == /\ pc = "writing" /\ cbytes = -1 /\ bytes >= 1 /\ NearFrame(bytes) /\ HistoryExplored
             /\ cbytes' = bytes
             /\ UNCHANGED <<F, bytes, meta, kind, quiet, pc, ns, rlf, ftsq, ftsw>>
\* a shorter copy replaces the file the constructor saw
Truncate == /\ pc = "writing" /\ cbytes >= 0
            /\ \E b \in F..(bytes - 1) : NearFrame(b) /\ bytes' = b
            /\ pc' = "closed"
            /\ UNCHANGED <<F, meta, kind, quiet, ns, rlf, ftsq, ftsw, cbytes>>

\* the acquisition writes; a compressed stream only ever holds whole frames
WriterAppend == /\ pc = "writing"
                /\ bytes + (IF kind = "cbin" THEN F ELSE 1) < (MaxFrames + 1) * F
                /\ bytes' = bytes + (IF kind = "cbin" THEN F ELSE 1)
                /\ UNCHANGED <<F, meta, kind, quiet, pc, ns, rlf, ftsq, ftsw, cbytes>>

\* ... and stops (end of acquisition, crash, truncated copy): from one complete frame up
WriterStop == /\ pc = "writing" /\ bytes >= F
              /\ pc' = "closed"
              /\ UNCHANGED <<F, bytes, meta, kind, quiet, ns, rlf, ftsq, ftsw, cbytes>>

Open == /\ pc = "closed"
        /\ LET q == bytes \div F
               r == bytes % F
               cq == IF cbytes < 0 THEN -1 ELSE cbytes \div F
               cr == IF cbytes < 0 THEN 0 ELSE cbytes % F
               out == ImplOutcomeD(kind, F, q, r, meta, quiet, cq, cr)
           IN /\ pc' = out
              /\ IF out = "opened"
                 THEN /\ ns' = ImplNsD(kind, F, q, r, meta, cq, cr)
                      /\ rlf' = ns'                                  \* rl = ns / fs
                      /\ ftsq' = ImplFtsD(kind, F, q, r, meta, cq, cr)[1]
                      /\ ftsw' = ImplFtsD(kind, F, q, r, meta, cq, cr)[2]
                 ELSE UNCHANGED <<ns, rlf, ftsq, ftsw>>
        /\ UNCHANGED <<F, bytes, meta, kind, quiet, cbytes>>

\* open() of an object constructed earlier fails for a reason of the environment (the file, or the .ch of a compressed
\* file, is away while a copy is being put in place): nothing of the object has changed; the file is back afterwards
OpenFails == /\ pc = "closed" /\ cbytes >= 0
             /\ pc' = "writing"
             /\ UNCHANGED <<F, bytes, meta, kind, quiet, ns, rlf, ftsq, ftsw, cbytes>>

\* the same object is opened again later (with or without close() in between): what it holds of the metadata is what
\* the previous open() left there; the acquisition has written more in the meantime, or a shorter copy replaced the file.
\* (explored from the sizes Construct is explored from; "orig" / "cachedsize" kept the constructor's size for ever and
\* left fractional durations behind: their re-opening is not modelled)
Reopen == /\ Variant = "fixed" /\ pc = "opened" /\ ftsw /\ NearFrame(bytes) /\ HistoryExplored
          /\ pc' = "writing" /\ cbytes' = bytes /\ meta' = ftsq
          /\ ns' = -1 /\ rlf' = -1 /\ ftsq' = -1 /\ ftsw' = TRUE       \* judged again by the next Open
          /\ UNCHANGED <<F, bytes, kind, quiet>>

Next == WriterAppend \/ WriterStop \/ Construct \/ Truncate \/ Open \/ OpenFails \/ Reopen

Spec == Init /\ [][Next]_vars

-----------------------------------------------------------------------------
(* property layer: over what the constructor did and the values the reader handed out.         *)
(* q, r describe the file that is physically there; everything else is observed.                 *)

OpenSucceedsP(outcome) == outcome = "opened"
\* exactly the complete frames physically present
ExposedP(nsObs, q) == nsObs = q
\* nothing beyond the file:  nsObs * f <= q * f + r  with r < f
WithinFileP(nsObs, q) == nsObs <= q
\* the reported duration matches the exposed count: rl * fs = ns  (rlfObs is the projection of rl * fs)
DurationP(rlfObs, nsObs) == rlfObs = nsObs

\* reads follow NumPy on an array of q rows.  A read is <<"slice", a, b>> with 0 <= a, 0 <= b, or
\* <<"index", i>>; the observation is <<rows returned or -1 for IndexError, values equal the file>>.
\* An index at or past the end must not hand out data (there is none in the file); nothing is demanded
\* of an index below -q (mtscomp wraps it around, NumPy raises: both stay inside the file).
SliceRows(a, b, q) == Max2(0, Min2(b, q) - Min2(a, q))
ReadRowsP(rd, rowsObs, q) ==
    IF rd[1] = "slice" THEN rowsObs = SliceRows(rd[2], rd[3], q)
    ELSE IF rd[2] >= -q /\ rd[2] < q THEN rowsObs = 1
    ELSE IF rd[2] >= q THEN rowsObs = -1
    ELSE TRUE
ReadValuesP(rd, eqObs, q) == (rd[1] = "slice" \/ (rd[2] >= -q /\ rd[2] < q)) => eqObs

-----------------------------------------------------------------------------
(* the model's instances of the property layer *)
Q == bytes \div F
Done == pc \in {"opened", "raised"}
OpenSucceeds == Done => OpenSucceedsP(pc)
Exposed == pc = "opened" => ExposedP(ns, Q)
WithinFile == pc = "opened" => WithinFileP(ns, Q)
Duration == pc = "opened" => DurationP(rlf, ns)
\* the duration left in the metadata agrees too for Reader (OnlineReader never reads it, and leaves
\* it alone when the file ends on a frame boundary).  Not demanded by the property; kept as a fact
\* about the repaired implementation layer.
ByteFormsAgree ==
    LET r == bytes % F IN
    /\ Mismatch(kind, F, Q, r, meta) = MismatchBytes(kind, F, Q, r, meta)
    /\ \A n \in 0..(Q + 2) : (n > Q) = (n * F > bytes)
MetaDurationWhole == (pc = "opened" /\ kind # "online") => (ftsw /\ ftsq = ns)

-----------------------------------------------------------------------------
(* spec -> code: every case of the box with what the property layer expects of it *)
MaxF == CHOOSE f \in FSet : \A g \in FSet : g <= f
\* (cq, cr): what a constructor that ran early saw (-1: none).  Deferred cases: the full neighbourhood for the offline Reader
\* opened quietly (the branch that used the cached size), a thinner one (one frame more / fewer at construction, whole frames
\* then) for the other kinds of reader and for ignore_warnings = False
ThinDeferred(c) == /\ c.cr = 0 /\ c.r \in {0, 1} /\ c.meta \in {c.cq, c.q}
                   /\ (c.cq = c.q + 1 \/ c.cq = c.q - 1)
Cases == {c \in [kind : Kinds, F : FSet, q : 1..MaxFrames, r : 0..(MaxF - 1),
                 meta : (0..MaxMeta) \cup {Absent}, quiet : BOOLEAN, cq : -1..(MaxFrames + 1), cr : {0, 1}] :
            /\ c.r < c.F
            /\ c.kind = "cbin" => c.r = 0          \* (both values of ignore_warnings: the branch that rewrites the duration must not depend on it)
            /\ c.meta = Absent => c.kind = "online"
            /\ c.cq = -1 => c.cr = 0
            /\ c.cq >= 0 => /\ c.r \in {0, 1, c.F - 1} /\ c.cq * c.F + c.cr # c.q * c.F + c.r
                            /\ c.meta \in {c.cq, c.q, c.q + 1}
                            /\ (c.kind = "offline" /\ c.quiet) \/ ThinDeferred(c)}
Expect(c) == [outcome |-> "opened", ns |-> c.q, rlf |-> c.q,
              impl_outcome |-> ImplOutcomeD(c.kind, c.F, c.q, c.r, c.meta, c.quiet, c.cq, c.cr),
              impl_ns |-> ImplNsD(c.kind, c.F, c.q, c.r, c.meta, c.cq, c.cr)]
=============================================================================
