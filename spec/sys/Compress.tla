------------------------------ MODULE Compress ------------------------------
(***************************************************************************)
(* C02 - spikeglx.Reader.compress_file / decompress_file /                  *)
(* decompress_to_scratch and the constructor's companion lookup, over an    *)
(* abstract directory.                                                      *)
(*                                                                         *)
(* fs : file name -> status                                                 *)
(*   "A" absent | "P" present but not a complete image of the recording     *)
(*   (empty, truncated, half-written) | "C" complete and equal to the       *)
(*   recording (for .cbin/.ch: decompresses to it) | "S" a complete file of *)
(*   some other, stale recording left behind by an earlier history          *)
(*                                                                         *)
(* Implementation layer: one action per file operation of the code (and of  *)
(* mtscomp as the code drives it): open-for-write, one chunk, header write, *)
(* verification, rename, unlink, copy, move.  `Fail` ends the running call  *)
(* with an exception after any step (the quantifier: a failure injected at  *)
(* each compression chunk).  Deliberate deviations of the code from the     *)
(* ideal are modelled as they are: the .ch header is written under its      *)
(* final name before the .cbin rename; decompress_file writes straight to   *)
(* the final .bin.                                                          *)
(***************************************************************************)
EXTENDS Integers, Sequences, FiniteSets, TLC

CONSTANTS NChunks,      \* chunks of the recording
          Variant       \* "fixed" | "orig" (constructor lookup before the fix: commit, F2)

Names == {"bin", "cbin", "ch", "meta", "cbin_tmp", "sbin", "stmp", "smeta"}

VARIABLES fs,           \* directory
          op,           \* running call: "none" | "compress" | "decompress" | "scratch"
          keep,         \* keep_original of the running call
          pc,           \* step inside the call
          k,            \* next chunk
          result,       \* outcome of the last finished call: "none" | "ok" | "failed" | "refused"
          srcAtStart,   \* status of the call's source file when the call started (history variable)
          pubAtStart    \* a complete compressed pair (.cbin + its .ch) was there when the call started (history variable)

vars == <<fs, op, keep, pc, k, result, srcAtStart, pubAtStart>>

Set(f, n, v) == [f EXCEPT ![n] = v]

-----------------------------------------------------------------------------
(* constructor lookup: which binary does Reader(path) resolve to, "none" if it resolves to no binary *)
Present(f, n) == f[n] # "A"
ResolveData(f, entry) ==
    CASE entry = "bin" -> "bin"
      [] entry = "cbin" -> "cbin"
      [] entry = "meta" ->
            IF Variant = "orig"
            THEN (IF Present(f, "bin") THEN "bin" ELSE "none")      \* second assignment overwrites the first
            ELSE (IF Present(f, "bin") THEN "bin" ELSE IF Present(f, "cbin") THEN "cbin" ELSE "none")

-----------------------------------------------------------------------------
\* directories a call may find: the recording in at least one form, a stale compressed pair, leftovers of
\* earlier failed calls, a scratch copy
InitDirs ==
    {[n \in Names |->
         CASE n = "bin" -> b [] n = "cbin" -> c [] n = "ch" -> c
           [] n = "meta" -> "C" [] n = "cbin_tmp" -> t [] n = "sbin" -> sb [] n = "stmp" -> st
           [] n = "smeta" -> IF sb = "A" THEN "A" ELSE "C"]
     : <<b, c, t, sb, st>> \in {x \in {"A", "C"} \X {"A", "C", "S"} \X {"A", "P"} \X {"A", "C"} \X {"A", "P"} :
                                  x[1] = "C" \/ x[2] = "C"}}
\* data file and header of one compression, both whole
PairComplete(f) == f["cbin"] \in {"C", "S"} /\ f["ch"] = f["cbin"]
Init ==
    /\ fs \in InitDirs
    /\ op = "none" /\ keep = TRUE /\ pc = "idle" /\ k = 0 /\ result = "none" /\ srcAtStart = "A" /\ pubAtStart = FALSE

(* ---- compress_file(keep_original) on Reader(bin) ---- *)
CStart(kp) ==
    /\ op = "none" /\ fs["bin"] = "C"
    /\ op' = "compress" /\ keep' = kp /\ pc' = "open" /\ k' = 0 /\ result' = "none" /\ srcAtStart' = fs["bin"]
    /\ pubAtStart' = PairComplete(fs) /\ UNCHANGED fs
COpen ==      \* mtscomp opens the temporary output for writing (truncates a leftover)
    /\ op = "compress" /\ pc = "open"
    /\ fs' = Set(fs, "cbin_tmp", "P") /\ pc' = "chunk"
    /\ UNCHANGED <<op, keep, k, result, srcAtStart, pubAtStart>>
CChunk ==     \* one chunk compressed and appended
    /\ op = "compress" /\ pc = "chunk" /\ k < NChunks
    /\ k' = k + 1
    /\ fs' = Set(fs, "cbin_tmp", IF k + 1 = NChunks THEN "C" ELSE "P")
    /\ pc' = IF k + 1 = NChunks THEN "header0" ELSE "chunk"
    /\ UNCHANGED <<op, keep, result, srcAtStart, pubAtStart>>
CHeaderOpen ==    \* .ch opened for writing under its final name (a stale header is truncated)
    /\ op = "compress" /\ pc = "header0"
    /\ fs' = Set(fs, "ch", "P") /\ pc' = "header"
    /\ UNCHANGED <<op, keep, k, result, srcAtStart, pubAtStart>>
CHeader ==    \* header content written
    /\ op = "compress" /\ pc = "header"
    /\ fs' = Set(fs, "ch", "C") /\ pc' = "check"
    /\ UNCHANGED <<op, keep, k, result, srcAtStart, pubAtStart>>
CCheck ==     \* mtscomp's check_after_compress
    /\ op = "compress" /\ pc = "check"
    /\ pc' = "rename" /\ UNCHANGED <<fs, op, keep, k, result, srcAtStart, pubAtStart>>
CRename ==
    /\ op = "compress" /\ pc = "rename"
    /\ fs' = [fs EXCEPT !["cbin"] = fs["cbin_tmp"], !["cbin_tmp"] = "A"]
    /\ pc' = IF keep THEN "return" ELSE "unlink"
    /\ UNCHANGED <<op, keep, k, result, srcAtStart, pubAtStart>>
CUnlink ==
    /\ op = "compress" /\ pc = "unlink"
    /\ fs' = Set(fs, "bin", "A") /\ pc' = "return"
    /\ UNCHANGED <<op, keep, k, result, srcAtStart, pubAtStart>>

(* ---- decompress_file(keep_original) on Reader(cbin), default output = the final .bin ---- *)
DStart(kp) ==
    /\ op = "none" /\ fs["cbin"] = "C" /\ fs["ch"] = "C"
    /\ op' = "decompress" /\ keep' = kp /\ k' = 0 /\ result' = "none" /\ srcAtStart' = fs["cbin"]
    /\ pc' = IF Present(fs, "bin") THEN "refuse" ELSE "open"     \* mtscomp refuses to overwrite
    /\ pubAtStart' = PairComplete(fs) /\ UNCHANGED fs
DRefuse ==
    /\ op = "decompress" /\ pc = "refuse"
    /\ op' = "none" /\ pc' = "idle" /\ result' = "refused" /\ UNCHANGED <<fs, keep, k, srcAtStart, pubAtStart>>
DOpen ==
    /\ op = "decompress" /\ pc = "open"
    /\ fs' = Set(fs, "bin", "P") /\ pc' = "chunk" /\ UNCHANGED <<op, keep, k, result, srcAtStart, pubAtStart>>
DChunk ==
    /\ op = "decompress" /\ pc = "chunk" /\ k < NChunks
    /\ k' = k + 1
    /\ fs' = Set(fs, "bin", IF k + 1 = NChunks THEN "C" ELSE "P")
    /\ pc' = IF k + 1 = NChunks THEN "check" ELSE "chunk"
    /\ UNCHANGED <<op, keep, result, srcAtStart, pubAtStart>>
DCheck ==
    /\ op = "decompress" /\ pc = "check"
    /\ pc' = (IF keep THEN "return" ELSE "unlink1") /\ UNCHANGED <<fs, op, keep, k, result, srcAtStart, pubAtStart>>
DUnlink1 ==
    /\ op = "decompress" /\ pc = "unlink1"
    /\ fs' = Set(fs, "cbin", "A") /\ pc' = "unlink2" /\ UNCHANGED <<op, keep, k, result, srcAtStart, pubAtStart>>
DUnlink2 ==
    /\ op = "decompress" /\ pc = "unlink2"
    /\ fs' = Set(fs, "ch", "A") /\ pc' = "return" /\ UNCHANGED <<op, keep, k, result, srcAtStart, pubAtStart>>

(* ---- decompress_to_scratch(scratch_dir) on Reader(cbin) ---- *)
SStart ==
    /\ op = "none" /\ fs["cbin"] = "C" /\ fs["ch"] = "C"
    /\ op' = "scratch" /\ keep' = TRUE /\ k' = 0 /\ result' = "none" /\ srcAtStart' = fs["cbin"]
    /\ pc' = "copymeta" /\ pubAtStart' = PairComplete(fs) /\ UNCHANGED fs
SCopyMeta ==
    /\ op = "scratch" /\ pc = "copymeta"
    /\ fs' = Set(fs, "smeta", "C")
    /\ pc' = IF Present(fs, "sbin") THEN "return"                 \* an existing scratch file is re-used
             ELSE IF Present(fs, "stmp") THEN "rmtmp" ELSE "open"
    /\ UNCHANGED <<op, keep, k, result, srcAtStart, pubAtStart>>
SNoCopy ==    \* scratch_dir=None (the default): the copy is made next to the compressed file, whose metadata file serves
              \* both forms (scratch directory = directory of the recording: smeta is the recording's own .meta); no copy
    /\ op = "scratch" /\ pc = "copymeta" /\ fs["smeta"] = "C"
    /\ pc' = IF Present(fs, "sbin") THEN "return"
             ELSE IF Present(fs, "stmp") THEN "rmtmp" ELSE "open"
    /\ UNCHANGED <<fs, op, keep, k, result, srcAtStart, pubAtStart>>
SRmTmp ==     \* overwrite=True: a leftover temporary is removed first
    /\ op = "scratch" /\ pc = "rmtmp"
    /\ fs' = Set(fs, "stmp", "A") /\ pc' = "open" /\ UNCHANGED <<op, keep, k, result, srcAtStart, pubAtStart>>
SOpen ==
    /\ op = "scratch" /\ pc = "open"
    /\ fs' = Set(fs, "stmp", "P") /\ pc' = "chunk" /\ UNCHANGED <<op, keep, k, result, srcAtStart, pubAtStart>>
SChunk ==
    /\ op = "scratch" /\ pc = "chunk" /\ k < NChunks
    /\ k' = k + 1
    /\ fs' = Set(fs, "stmp", IF k + 1 = NChunks THEN "C" ELSE "P")
    /\ pc' = IF k + 1 = NChunks THEN "move" ELSE "chunk"
    /\ UNCHANGED <<op, keep, result, srcAtStart, pubAtStart>>
SMove ==
    /\ op = "scratch" /\ pc = "move"
    /\ fs' = [fs EXCEPT !["sbin"] = fs["stmp"], !["stmp"] = "A"]
    /\ pc' = "return" /\ UNCHANGED <<op, keep, k, result, srcAtStart, pubAtStart>>

Return ==
    /\ op # "none" /\ pc = "return"
    /\ op' = "none" /\ pc' = "idle" /\ result' = "ok" /\ UNCHANGED <<fs, keep, k, srcAtStart, pubAtStart>>

\* the running call ends with an exception; nothing is cleaned up (the code has no handler)
Fail ==
    /\ op # "none" /\ pc \notin {"return", "refuse"}
    /\ op' = "none" /\ pc' = "idle" /\ result' = "failed" /\ UNCHANGED <<fs, keep, k, srcAtStart, pubAtStart>>

Step == COpen \/ CChunk \/ CHeaderOpen \/ CHeader \/ CCheck \/ CRename \/ CUnlink
        \/ DRefuse \/ DOpen \/ DChunk \/ DCheck \/ DUnlink1 \/ DUnlink2
        \/ SCopyMeta \/ SNoCopy \/ SRmTmp \/ SOpen \/ SChunk \/ SMove \/ Return
Next == (\E kp \in BOOLEAN : CStart(kp) \/ DStart(kp)) \/ SStart \/ Step \/ Fail
Spec == Init /\ [][Next]_vars

-----------------------------------------------------------------------------
(* property layer: formulas over directory states f, g (before / after a step) and call outcomes *)

\* no file carrying a final name that the atomic-publish mechanism protects is ever incomplete
AtomicPublishP(f) == f["cbin"] # "P" /\ f["sbin"] # "P"
\* a source disappears only when its replacement is complete
SourceSafeP(f, g) ==
    /\ (f["bin"] # "A" /\ g["bin"] = "A") => (g["cbin"] = "C" /\ g["ch"] = "C")
    /\ (f["cbin"] # "A" /\ g["cbin"] = "A") => g["bin"] = "C"
    /\ (f["ch"] # "A" /\ g["ch"] = "A") => g["bin"] = "C"
\* a failed compression / decompression-to-scratch leaves the source as it was
SourceUntouchedP(o, res, src, f) ==
    (res = "failed" /\ o \in {"compress", "scratch"}) =>
        f[IF o = "compress" THEN "bin" ELSE "cbin"] = src
\* a completed call delivered what it promises
CompletedP(o, kp, res, f) ==
    res = "ok" =>
        CASE o = "compress" -> f["cbin"] = "C" /\ f["ch"] = "C" /\ (kp => f["bin"] = "C") /\ (~kp => f["bin"] = "A")
          [] o = "decompress" -> f["bin"] = "C" /\ (kp => f["cbin"] = "C") /\ (~kp => f["cbin"] = "A" /\ f["ch"] = "A")
          [] o = "scratch" -> f["sbin"] \in {"C"} /\ f["smeta"] = "C" /\ f["cbin"] = "C"
          [] OTHER -> TRUE
\* a compression that fails at one of its chunks (the property's fault set) leaves no final-named compressed file that is
\* not a complete compressed recording: data file and header belong together (a .cbin whose .ch is gone cannot be read)
\* (pub: such a pair was there when the call started - leftovers of earlier failures are not this call's doing)
FailedAtChunkP(o, res, at, pub, f) == (o = "compress" /\ res = "failed" /\ at \in {"open", "chunk"} /\ pub) => PairComplete(f)
\* every usable entry path resolves to a binary holding the recording
Usable(f, e) ==
    CASE e = "bin" -> f["bin"] = "C"
      [] e = "cbin" -> f["cbin"] = "C" /\ f["ch"] = "C"
      [] e = "meta" -> f["bin"] \in {"A", "C"} /\ f["cbin"] \in {"A", "C"}
                        /\ (f["bin"] = "C" \/ (f["cbin"] = "C" /\ f["ch"] = "C"))
ResolveP(f, R(_)) == \A e \in {"bin", "cbin", "meta"} : Usable(f, e) => (R(e) \in {"bin", "cbin"} /\ f[R(e)] = "C")

-----------------------------------------------------------------------------
(* the model's instances *)
AtomicPublish == AtomicPublishP(fs)
SourceSafe == [][SourceSafeP(fs, fs')]_vars
\* outcome formulas are evaluated at the step that ends the call
Outcome == [][(op # "none" /\ op' = "none") =>
                 /\ SourceUntouchedP(op, result', srcAtStart, fs')
                 /\ CompletedP(op, keep, result', fs')
                 /\ FailedAtChunkP(op, result', pc, pubAtStart, fs')]_vars
ResolveSame == op = "none" => ResolveP(fs, LAMBDA e : ResolveData(fs, e))
TypeOK == fs \in [Names -> {"A", "P", "C", "S"}] /\ k \in 0..NChunks
=============================================================================
