------------------------------- MODULE System -------------------------------
(***************************************************************************)
(* Composition of the file-level specifications: the converter of C04       *)
(* (NP2Convert) performs each of its compressions through                   *)
(* spikeglx.Reader.compress_file, whose own protocol is the subject of C02   *)
(* (Compress: temporary file, chunks, header, check, rename).  NP2Convert     *)
(* treats `CompressFile` as one atomic step.  This module replaces that step  *)
(* by the detailed protocol - with an interruption possible between any two   *)
(* of its file operations - and TLC checks                                    *)
(*   (1) refinement: every behaviour of the detailed system is a behaviour    *)
(*       of NP2Convert (PROPERTY Spec: the sub-steps stutter on NP2Convert's  *)
(*       variables, the rename is its CompressFile step), so everything       *)
(*       proved of NP2Convert (Recoverable, DeleteGuard, Outcome) holds of    *)
(*       the detailed system, and                                             *)
(*   (2) the system-level publication rule: a final-named compressed file is  *)
(*       never partial, whatever leftovers interrupted runs leave behind.     *)
(***************************************************************************)
EXTENDS NP2Convert

CONSTANTS NCk,         \* chunks per compressed file
          Publish      \* "tmp" = the code (temporary name, then rename); "final" = what-if: chunks written under the final name

VARIABLES tmp,         \* key -> status of <file>.cbin_tmp ("A" | "P" | "C"), keyed like the .cbin it will become
          hdr,         \* key -> status of <file>.ch
          sub,         \* step inside compress_file: "idle" | "open" | "chunk" | "header" | "check" | "rename"
          ck           \* chunks written

svars == <<vars, tmp, hdr, sub, ck>>
CKeys == {K(p, s) : p \in {"apc", "lfc"}, s \in Sh} \cup {"origc"}
CurKey == IF rpc = "compress" /\ csub = "orig" THEN "origc" ELSE CbinKey

SInit == Init /\ tmp = [x \in CKeys |-> "A"] /\ hdr = [x \in CKeys |-> "A"] /\ sub = "idle" /\ ck = 0

\* every action of NP2Convert except the two atomic compressions, with the detail variables unchanged
Coarse == /\ (\E o \in Opts : Begin(o)) \/ (\E ow \in BOOLEAN : BeginReuse(ow)) \/ Prepare \/ Window \/ Close \/ MetaAP \/ MetaLF
             \/ Check \/ CheckClosing \/ CompressOrigRm \/ UnlinkStale \/ UnlinkStaleRaises \/ UnlinkBin \/ Delete \/ Return
          /\ sub = "idle"
          /\ UNCHANGED <<tmp, hdr, sub, ck>>

InCompress == rpc = "compress" /\ csub \in {"comp", "orig"}
DStart ==    \* compress_file entered: mtscomp opens <file>.cbin_tmp for writing (truncating a leftover)
    /\ InCompress /\ sub = "idle"
    /\ tmp' = [tmp EXCEPT ![CurKey] = "P"] /\ sub' = "chunk" /\ ck' = 0
    /\ IF Publish = "final"
       THEN fs' = [fs EXCEPT ![CurKey] = "P"] /\ UNCHANGED <<kind, opts, rpc, widx, cs, cph, csub, checkDone, verified, status, nruns, fs0, hdr>>
       ELSE UNCHANGED <<vars, hdr>>
DChunkW ==
    /\ InCompress /\ sub = "chunk" /\ ck < NCk
    /\ ck' = ck + 1
    /\ tmp' = [tmp EXCEPT ![CurKey] = IF ck + 1 = NCk THEN "C" ELSE "P"]
    /\ sub' = (IF ck + 1 = NCk THEN "header" ELSE "chunk")
    /\ UNCHANGED <<vars, hdr>>
DHeader ==   \* .ch written under its final name
    /\ InCompress /\ sub = "header"
    /\ hdr' = [hdr EXCEPT ![CurKey] = "C"] /\ sub' = "check"
    /\ UNCHANGED <<vars, tmp, ck>>
DCheckC ==
    /\ InCompress /\ sub = "check" /\ sub' = "rename"
    /\ UNCHANGED <<vars, tmp, hdr, ck>>
DRename ==   \* the rename publishes the file: this is NP2Convert's atomic step
    /\ InCompress /\ sub = "rename" /\ tmp[CurKey] = "C"
    /\ (IF csub = "orig" THEN CompressOrig ELSE CompressFile)
    /\ tmp' = [tmp EXCEPT ![CurKey] = "A"] /\ sub' = "idle" /\ ck' = 0
    /\ UNCHANGED hdr
\* an interruption: the coarse Crash, wherever the detailed protocol stands (leftovers stay)
DCrash == Crash /\ sub' = "idle" /\ ck' = 0 /\ UNCHANGED <<tmp, hdr>>

SNext == Coarse \/ DStart \/ DChunkW \/ DHeader \/ DCheckC \/ DRename \/ DCrash
SSpec == SInit /\ [][SNext]_svars

\* (2) publication: whenever a compressed file exists under its final name it is complete, and it has its header
FinalNeverPartial == \A x \in CKeys : fs[x] # "P"
\* a leftover temporary never counts as output: CompleteSet is stated on final names only (NP2Convert!Outcome)
=============================================================================
