---------------------------- MODULE DestripeFile ----------------------------
(***************************************************************************)
(* C06 - ibldsp.voltage.decompress_destripe_cbin: a recording of ns samples *)
(* is processed in overlapping batches of NB samples (stride S = NB - 2T,   *)
(* T = taper margin) by np worker processes that share no synchronisation   *)
(* and each seek into the same output file.                                 *)
(*                                                                         *)
(* Implementation layer (one action per step of `my_function`):            *)
(*   Start(w)  : start batch ceil(w*CHUNK/NB), first_s, max_s, seek         *)
(*   Write(w)  : one iteration of the `while True` loop: read batch, write  *)
(*               kept rows at the cursor, rms row, pad after the last one,  *)
(*               break when last_s >= max_s                                 *)
(*   a worker whose batch is empty / shorter than the taper raises (Crash)  *)
(* Variant "orig": tree before the fix: commit (F10); "fixed": with the     *)
(* guard `previous batch already reaches the end => nothing to do`.         *)
(* The parent's preparation step is part of Init: without append the        *)
(* output file is created empty - `open(output_file, "wb").close()`         *)
(* truncates whatever an earlier run left under that name (Stales = rows of *)
(* such a leftover) - with append the offset is the size of what is there.  *)
(* What-if variant "notrunc" (an existence-only preparation, e.g. `touch`): *)
(* a longer leftover survives behind the new rows; FinalLength must reject  *)
(* it (vacuity control, never the registered model).                        *)
(*                                                                         *)
(* The output is abstracted to *cells*: maximal row ranges between write    *)
(* boundaries; file[c] = batch whose rows were written last into cell c.    *)
(* Rows of different batches differ (different taper/filter context), rows  *)
(* of the same batch are identical whoever computes them.                   *)
(***************************************************************************)
EXTENDS Integers, Sequences, FiniteSets, TLC

CONSTANTS Variant,      \* "orig" | "fixed" | "notrunc" (what-if)
          T,            \* taper margin (code: 1024)
          NSs, NBs, NPs, Pads, Offs,    \* sets the parameters are drawn from
          MaxP          \* upper bound on workers (size of the per-worker arrays)

VARIABLES ns, NB, np, pad, off,      \* parameters of the call
          wpc, wb, wcur, wmax,       \* per worker: pc, next batch, file cursor (rows), max_s
          file,                      \* cell -> batch that last wrote it (-1: never written)
          misplaced,                 \* some write did not start at the first kept row of its batch
          rms,                       \* set of rms/time rows written (relative to the rms offset)
          size,                      \* rows in the output file (relative to offset 0)
          pads                       \* set of row positions at which padding was written

vars == <<ns, NB, np, pad, off, wpc, wb, wcur, wmax, file, misplaced, rms, size, pads>>
W == 0..(MaxP - 1)

Min(a, b) == IF a < b THEN a ELSE b
Max(a, b) == IF a > b THEN a ELSE b
CeilDiv(a, b) == -((-a) \div b)

S == NB - 2 * T
CHUNK == ns \div np
FirstS(b) == b * S
LastS(b) == Min(FirstS(b) + NB, ns)
\* first kept row / one past the last kept row of batch b, as the code computes ind2save
Lo(b) == IF b = 0 THEN 0 ELSE FirstS(b) + T
Hi(b) == IF LastS(b) = ns THEN ns ELSE FirstS(b) + NB - T
\* the canonical (single worker) batch sequence 0..LastB
LastB == IF ns <= NB THEN 0 ELSE CeilDiv(ns - NB, S)
\* cells: cell c starts at Lo(c); there is one for every batch index whose Lo lies inside the file
NCells == IF ns <= T THEN 1 ELSE CeilDiv(ns - T, S)      \* #{c >= 0 : Lo(c) < ns}
Cells == 0..(NCells - 1)
Owner(c) == Min(c, LastB)
CellsOf(b) == IF LastS(b) = ns THEN {c \in Cells : c >= b} ELSE {b} \cap Cells
\* rows of a file an earlier run may have left under the output name: none, shorter, exactly as long as, longer than
\* this run's result
Stales == {0, 1, ns + pad, ns + pad + 5}

-----------------------------------------------------------------------------
Init ==
    /\ ns \in NSs /\ NB \in NBs /\ np \in NPs /\ pad \in Pads /\ off \in Offs
    /\ NB > 2 * T /\ ns >= np /\ np <= MaxP
    /\ wpc = [w \in W |-> IF w < np THEN "idle" ELSE "none"]
    /\ wb = [w \in W |-> 0] /\ wcur = [w \in W |-> 0] /\ wmax = [w \in W |-> 0]
    /\ file = [c \in Cells |-> -1]
    /\ misplaced = FALSE /\ rms = {} /\ pads = {}
    /\ \E st \in Stales : size = IF off > 0 \/ Variant # "notrunc" THEN off ELSE st

\* my_function prologue
Start(w) ==
    /\ wpc[w] = "idle"
    /\ LET b == CeilDiv(w * CHUNK, NB)
           nothing == Variant # "orig" /\ b > 0 /\ FirstS(b) + 2 * T >= ns   \* the guard of the fix
       IN /\ wb' = [wb EXCEPT ![w] = b]
          /\ wmax' = [wmax EXCEPT ![w] = IF w = np - 1 THEN ns ELSE (w + 1) * CHUNK]
          /\ wcur' = [wcur EXCEPT ![w] = off + (IF w = 0 THEN 0 ELSE FirstS(b) + T)]
          /\ wpc' = [wpc EXCEPT ![w] = IF nothing THEN "done" ELSE "run"]
    /\ UNCHANGED <<ns, NB, np, pad, off, file, misplaced, rms, size, pads>>

\* one loop iteration
Write(w) ==
    /\ wpc[w] = "run"
    /\ LET b == wb[w]
           len == LastS(b) - FirstS(b)          \* samples read
       IN IF len < T \/ len <= 0
          THEN \* empty or too short for the taper multiplication: the call raises
               /\ wpc' = [wpc EXCEPT ![w] = "crashed"]
               /\ UNCHANGED <<wb, wcur, wmax, file, misplaced, rms, size, pads>>
          ELSE LET i0 == IF FirstS(b) = 0 THEN 0 ELSE T
                   i1 == IF LastS(b) = ns THEN NB ELSE NB - T
                   rows == Max(Min(i1, len) - i0, 0)
                   last == LastS(b) >= wmax[w]
               IN /\ file' = [c \in DOMAIN file |-> IF rows > 0 /\ c \in CellsOf(b) THEN b ELSE file[c]]
                  /\ misplaced' = (misplaced \/ (rows > 0 /\ wcur[w] # off + Lo(b)))
                  /\ rms' = rms \cup {b}
                  /\ wcur' = [wcur EXCEPT ![w] = @ + rows]
                  /\ pads' = IF last /\ LastS(b) = ns /\ pad > 0 THEN pads \cup {wcur[w] + rows} ELSE pads
                  /\ size' = Max(size, wcur[w] + rows + (IF last /\ LastS(b) = ns THEN pad ELSE 0))
                  /\ wb' = [wb EXCEPT ![w] = b + 1]
                  /\ wpc' = [wpc EXCEPT ![w] = IF last THEN "done" ELSE "run"]
                  /\ UNCHANGED wmax
    /\ UNCHANGED <<ns, NB, np, pad, off>>

Next == \E w \in W : Start(w) \/ Write(w)
Spec == Init /\ [][Next]_vars

-----------------------------------------------------------------------------
(* property layer: statements about the output files only.  Parameterised by the observables:  *)
(*   f      cell -> batch whose rows the final file holds there                                  *)
(*   sz     rows of the output file                                                              *)
(*   rrows  set of rms rows present                                                              *)
Terminated == \A w \in W : wpc[w] \in {"done", "none", "crashed"}
NoCrash == \A w \in W : wpc[w] # "crashed"

CanonicalP(f) == \A c \in DOMAIN f : f[c] = Owner(c)          \* every sample at its own position, from its own batch
LengthP(sz) == sz = off + ns + pad
RmsRowsP(rrows) == rrows = 0..LastB
PadP(pp) == pp = (IF pad > 0 THEN {off + ns} ELSE {})

FinalFileCanonical == Terminated /\ NoCrash => CanonicalP(file) /\ ~misplaced
FinalLength == Terminated /\ NoCrash => LengthP(size)
FinalRms == Terminated /\ NoCrash => RmsRowsP(rms)
FinalPad == Terminated /\ NoCrash => PadP(pads)
\* schedule independence, stated as a safety property of every step: a cell only ever receives its owner's rows
OnlyOwnerWrites == \A c \in DOMAIN file : file[c] \in {-1, Owner(c)}
=============================================================================
