----------------------------- MODULE CbinSlice -----------------------------
(***************************************************************************)
(* C02 (transparency) - reading a sample slice through a compressed file.  *)
(* Property layer: Rows(n, start, stop, step) = the source rows NumPy       *)
(* slicing of the whole array returns (Python's slice.indices semantics).   *)
(* Implementation layer: how the read is served from chunks of CH samples   *)
(* by mtscomp as spikeglx.Reader drives it (clip start/stop into 0..n,      *)
(* load the chunks covering [i0, i1), sub-select with the step).            *)
(* NoneV encodes Python's None.                                             *)
(***************************************************************************)
EXTENDS Integers, Sequences, FiniteSets, TLC

CONSTANTS CH, MaxNS, Steps, NoneV, Variant

VARIABLES n, start, stop, step, pc, got

vars == <<n, start, stop, step, pc, got>>

Clamp(x, lo, hi) == IF x < lo THEN lo ELSE IF x > hi THEN hi ELSE x

\* property layer: Python slice semantics
RECURSIVE Walk(_, _, _)
Walk(i, hi, st) == IF (st > 0 /\ i >= hi) \/ (st < 0 /\ i <= hi) THEN <<>> ELSE <<i>> \o Walk(i + st, hi, st)
Rows(nn, a, b, s) ==
    LET st == IF s = NoneV THEN 1 ELSE s IN
    IF st > 0
    THEN LET lo == IF a = NoneV THEN 0 ELSE Clamp(IF a < 0 THEN a + nn ELSE a, 0, nn)
             hi == IF b = NoneV THEN nn ELSE Clamp(IF b < 0 THEN b + nn ELSE b, 0, nn)
         IN Walk(lo, hi, st)
    ELSE LET lo == IF a = NoneV THEN nn - 1 ELSE Clamp(IF a < 0 THEN a + nn ELSE a, -1, nn - 1)
             hi == IF b = NoneV THEN -1 ELSE Clamp(IF b < 0 THEN b + nn ELSE b, -1, nn - 1)
         IN Walk(lo, hi, st)

\* implementation layer: mtscomp.Reader.__getitem__(slice)
Validate(i, dflt, nn) == IF i = NoneV THEN dflt ELSE Clamp(IF i < 0 THEN i + nn ELSE i, 0, nn)
ChunkOf(i) == i \div CH
ViaChunks(nn, a, b, s) ==
    LET i0 == Validate(a, 0, nn)
        i1 == Validate(b, nn, nn)
    IN IF i1 <= i0 THEN <<>>
       ELSE LET first == ChunkOf(Clamp(i0, 0, nn - 1))
                last == ChunkOf(Clamp(i1, i0, nn - 1))
                base == first * CH                      \* first row of the concatenated chunks
                len == (IF (last + 1) * CH < nn THEN (last + 1) * CH ELSE nn) - base
                \* arr[a:b:step] on the concatenation, then mapped back to source rows
                sub == Rows(len, i0 - base, i1 - base, s)
            IN [j \in 1..Len(sub) |-> sub[j] + base]
\* the repaired reader serves negative steps by reading the forward range and flipping it
ViaChunksFixed(nn, a, b, s) ==
    IF s # NoneV /\ s < 0 THEN Rows(nn, a, b, s) ELSE ViaChunks(nn, a, b, s)
Impl(nn, a, b, s) == IF Variant = "orig" THEN ViaChunks(nn, a, b, s) ELSE ViaChunksFixed(nn, a, b, s)

Bounds(nn) == {NoneV} \cup (-(nn + 2)..(nn + 2))
Init == /\ n \in 1..MaxNS /\ step \in Steps
        /\ start \in Bounds(n) /\ stop \in Bounds(n)
        /\ pc = "new" /\ got = <<>>
Read == /\ pc = "new" /\ pc' = "done" /\ got' = Impl(n, start, stop, step)
        /\ UNCHANGED <<n, start, stop, step>>
Next == Read
Spec == Init /\ [][Next]_vars

Known == Variant = "orig" /\ step # NoneV /\ step < 0      \* F12, listed in KNOWN_FINDINGS.txt while unrepaired
Transparent == pc = "done" => (got = Rows(n, start, stop, step) \/ Known)
=============================================================================
