----------------------------- MODULE NP2Convert -----------------------------
(***************************************************************************)
(* C04 - neuropixel.NP2Converter.process() over run histories.              *)
(*                                                                         *)
(* Directory: fs : key -> "A" absent | "P" present, not a complete valid    *)
(* file | "C" complete and valid (an AP shank file: byte-identical to the   *)
(* original's columns; a .cbin: decompresses to that; an LF file: right     *)
(* shape and sync; a folder: exists) | "Q" a complete and valid conversion  *)
(* of the first `nsamples` samples only (option `part`: the object was      *)
(* parameterised with init_params(nsamples = k < ns)).                       *)
(*   orig / origc          original binary, uncompressed / compressed       *)
(*   dir<s> ap<s> apc<s> apm<s> lf<s> lfc<s> lfm<s>    per shank s          *)
(* (NP2.1: a single pseudo shank 0 living next to the original.)            *)
(*                                                                         *)
(* The directory a history starts from (Init) is any combination of a FORM  *)
(* of the original ("bin" / "cbin": one file; "both": a complete .bin and a  *)
(* complete .cbin side by side; "binS" / "cbinS": the complete one next to a *)
(* stale file of the other form, status "P") and a FOUND state of the shank  *)
(* folders ("none"; "dirs": the folders exist and hold other files only;     *)
(* "bins" / "cbins" / "mixed": output of another (longer) recording under    *)
(* the names this conversion writes).  The boxes choose Forms and Founds.    *)
(*                                                                         *)
(* A history is a sequence of runs, each by a fresh converter object with   *)
(* options (overwrite, post_check, compress, delete_original), `part`, `cb`  *)
(* (the file handed to the converter is the compressed form: it is what      *)
(* delete_NP24 unlinks, and what decides whether compress_NP21 compresses    *)
(* the original in place) and `sub` (init_params(nshank=[0]): only the first *)
(* shank is split off - the verification then refuses, status "refused").    *)
(* A run is    *)
(* the sequence of steps of process(); `Crash` interrupts it after any      *)
(* step.  Implementation layer = the steps as the code performs them        *)
(* (Variant "orig": before the fix: commit F5, the unconditional unlink of  *)
(* a stale .cbin raises when there is none; Variant "partdel": before the   *)
(* fix that keeps the original when only part of it was converted - the     *)
(* verification compares the converted prefix only, so it succeeds and the   *)
(* original used to be deleted with it).                                    *)
(***************************************************************************)
EXTENDS Integers, Sequences, FiniteSets, TLC

CONSTANTS NSH,        \* shanks of the NP2.4 recording
          NW,         \* windows of the loop
          MaxRuns,    \* history length
          Variant,
          Kinds       \* subset of {"NP24", "NP21", "NP1", "split"}

Sh == 0..(NSH - 1)
D(s) == IF s = 0 THEN "0" ELSE IF s = 1 THEN "1" ELSE IF s = 2 THEN "2" ELSE "3"
K(p, s) == p \o D(s)
Keys == {"orig", "origc"} \cup {K(p, s) : p \in {"dir", "ap", "apc", "apm", "lf", "lfc", "lfm"}, s \in Sh}

VARIABLES kind,       \* probe kind of the input (fixed along a behaviour)
          fs,         \* directory
          opts,       \* options of the running run
          rpc,        \* program counter of the running run ("idle" between runs)
          widx,       \* windows processed
          cs, cph, csub,   \* compression cursor: shank, "ap"/"lf", sub-step
          checkDone,  \* check_completed of the running converter object
          verified,   \* the split output currently on disk was compared with the original by THIS run (history variable)
          status,     \* outcome of the last finished run: "none", "1", "0", "m1" (= -1), "crashed" (injected), "raised" (intrinsic),
                      \* "refused" (the verification found a difference: AssertionError out of check_NP24)
          nruns,
          fs0         \* directory when the running run began (history variable)

vars == <<kind, fs, opts, rpc, widx, cs, cph, csub, checkDone, verified, status, nruns, fs0>>

Opts == [ow : BOOLEAN, chk : BOOLEAN, cmp : BOOLEAN, del : BOOLEAN, part : BOOLEAN, cb : BOOLEAN, sub : BOOLEAN]
DoneSt(o) == IF o.part THEN "Q" ELSE "C"     \* what a finished window loop leaves
ShOf(k) == IF k = "NP24" THEN Sh ELSE {0}
PSh(k, o) == IF k = "NP24" /\ o.sub THEN {0} ELSE ShOf(k)      \* the shanks this run processes
\* initial directories (overridden by the boxes: spec/mc/NP2Convert_*.cfg)
Forms == {"bin", "cbin"}
Founds == {"none"}
SubRuns == FALSE      \* whether runs restricted to the first shank (`sub`) are explored
Faults == FALSE       \* whether a shank file may be damaged before the verification (action Damage)
FormSt(form, x) ==
    IF x = "orig" THEN (IF form \in {"bin", "both", "binS"} THEN "C" ELSE IF form = "cbinS" THEN "P" ELSE "A")
    ELSE (IF form \in {"cbin", "both", "cbinS"} THEN "C" ELSE IF form = "binS" THEN "P" ELSE "A")
FoundFS(k, found) ==
    LET on(p) == {K(p, s) : s \in ShOf(k)}
        ap(S) == IF k = "NP24" THEN S ELSE {}
        Ps == IF found = "bins" THEN ap(on("ap")) \cup on("lf")
              ELSE IF found = "cbins" THEN ap(on("apc")) \cup on("lfc")
              ELSE IF found = "mixed" THEN ap(on("ap") \cup on("apc") \cup on("apm")) \cup on("lf") \cup on("lfc") \cup on("lfm")
              ELSE {}
        Cs == IF found \in {"bins", "cbins"} THEN on("dir") \cup on("lfm") \cup ap(on("apm"))
              ELSE IF found \in {"dirs", "mixed"} THEN on("dir")
              ELSE IF k = "NP21" THEN {"dir0"} ELSE {}
    IN [x \in Keys |-> IF x \in Ps THEN "P" ELSE IF x \in Cs THEN "C" ELSE "A"]
Handed(cb, f) == IF cb THEN f["origc"] = "C" ELSE f["orig"] = "C"     \* the file given to the constructor is there
\* Outside the property (DESIGN.md 9.6): when only some of the shank folders exist, a run without overwrite declines
\* (status 0) but first creates the missing folders with empty files.  Such directories arise only from an interruption
\* inside the folder preparation or from a run restricted to one shank (`sub`); a full run without overwrite is not
\* started on them.
FoldersUneven(f) == (\E s \in Sh : f[K("dir", s)] = "A") /\ (\E s \in Sh : f[K("dir", s)] # "A")
Set1(f, key, v) == [f EXCEPT ![key] = v]
SetAll(f, p, S, v) == [x \in DOMAIN f |-> IF \E s \in S : x = K(p, s) THEN v ELSE f[x]]
OrigPresent(f) == f["orig"] = "C" \/ f["origc"] = "C"

Init ==
    /\ kind \in Kinds
    /\ \E form \in Forms, found \in Founds :
         /\ (kind \in {"NP1", "split"}) => (found = "none" /\ form \in {"bin", "cbin"})
         /\ fs = [x \in Keys |-> IF x \in {"orig", "origc"} THEN FormSt(form, x) ELSE FoundFS(kind, found)[x]]
    /\ opts = [ow |-> FALSE, chk |-> FALSE, cmp |-> FALSE, del |-> FALSE, part |-> FALSE, cb |-> FALSE, sub |-> FALSE]
    /\ rpc = "idle" /\ widx = 0 /\ cs = 0 /\ cph = "ap" /\ csub = "stale" /\ checkDone = FALSE /\ verified = FALSE
    /\ status = "none" /\ nruns = 0 /\ fs0 = fs

Finish(st) == /\ rpc' = "idle" /\ status' = st /\ nruns' = nruns + 1
              /\ UNCHANGED <<kind, opts, widx, cs, cph, csub, checkDone, verified, fs0>>

\* NP2Converter(ap_file, ...) ; process(overwrite)
Begin(o) ==
    /\ rpc = "idle" /\ nruns < MaxRuns /\ Handed(o.cb, fs)
    /\ (o.sub => (kind = "NP24" /\ SubRuns))
    /\ ~(kind = "NP24" /\ ~o.ow /\ ~o.sub /\ FoldersUneven(fs))
    /\ opts' = o /\ rpc' = "prepare" /\ widx' = 0
    \* compression cursor: NP2.4 starts with shank 0 / AP; NP2.1 compresses the original in place first (if it is not
    \* compressed already) and then its single LF file; the stale .cbin is unlinked only when overwriting
    /\ cs' = 0 /\ cph' = (IF kind = "NP21" THEN "lf" ELSE "ap")
    /\ csub' = (IF kind = "NP21" /\ ~o.cb THEN "orig" ELSE IF o.ow THEN "stale" ELSE "comp")
    /\ checkDone' = FALSE /\ verified' = FALSE /\ status' = "none" /\ fs0' = fs
    /\ UNCHANGED <<kind, fs, nruns>>

\* process(overwrite) called again on the SAME converter object (overwrite is an argument of process(), the other options
\* belong to the object): check_completed is not reset, the cursor is
BeginReuse(ow) ==
    /\ rpc = "idle" /\ nruns > 0 /\ nruns < MaxRuns /\ Handed(opts.cb, fs) /\ status \in {"1", "0", "crashed", "refused"}
    /\ ~(kind = "NP24" /\ ~ow /\ ~opts.sub /\ FoldersUneven(fs))
    /\ opts' = [opts EXCEPT !.ow = ow] /\ rpc' = "prepare" /\ widx' = 0
    /\ cs' = 0 /\ cph' = (IF kind = "NP21" THEN "lf" ELSE "ap")
    /\ csub' = (IF kind = "NP21" /\ ~opts.cb THEN "orig" ELSE IF ow THEN "stale" ELSE "comp")
    /\ status' = "none" /\ fs0' = fs /\ verified' = FALSE
    /\ UNCHANGED <<kind, fs, nruns, checkDone>>

\* _prepare_files_NP24 / _NP21 (and the early exits of process())
Prepare ==
    /\ rpc = "prepare"
    /\ CASE kind = "NP1" -> fs' = fs /\ Finish("m1")
         [] kind = "split" -> fs' = fs /\ Finish("0")
         [] kind = "NP24" ->
              LET redo == {s \in PSh(kind, opts) : fs[K("dir", s)] = "A" \/ opts.ow}
                  exists == \E s \in PSh(kind, opts) : fs[K("dir", s)] # "A" /\ ~opts.ow
              IN /\ fs' = SetAll(SetAll(SetAll(fs, "dir", redo, "C"), "ap", redo, "P"), "lf", redo, "P")
                 /\ IF exists THEN Finish("0")
                    ELSE rpc' = "window" /\ UNCHANGED <<kind, opts, widx, cs, cph, csub, checkDone, verified, status, nruns, fs0>>
         [] kind = "NP21" ->
              LET exists == fs["lf0"] # "A" \/ fs["lfc0"] # "A"
              IN IF exists /\ ~opts.ow
                 THEN fs' = fs /\ Finish("0")
                 ELSE /\ fs' = Set1(fs, "lf0", "P")
                      /\ rpc' = "window" /\ UNCHANGED <<kind, opts, widx, cs, cph, csub, checkDone, verified, status, nruns, fs0>>

\* one iteration of the window loop; the files are complete once the last window is written
Window ==
    /\ rpc = "window" /\ widx < NW
    /\ widx' = widx + 1
    /\ IF widx + 1 = NW
       THEN /\ fs' = (IF kind = "NP24" THEN SetAll(SetAll(fs, "ap", PSh(kind, opts), DoneSt(opts)), "lf", PSh(kind, opts), DoneSt(opts))
                      ELSE Set1(fs, "lf0", DoneSt(opts)))
            /\ rpc' = "close"
       ELSE fs' = fs /\ rpc' = "window"
    /\ UNCHANGED <<kind, opts, cs, cph, csub, checkDone, verified, status, nruns, fs0>>

Close ==
    /\ rpc = "close"
    /\ rpc' = (IF kind = "NP24" THEN "meta_ap" ELSE "meta_lf")
    /\ UNCHANGED <<kind, fs, opts, widx, cs, cph, csub, checkDone, verified, status, nruns, fs0>>
MetaAP ==
    /\ rpc = "meta_ap"
    /\ fs' = SetAll(fs, "apm", PSh(kind, opts), "C") /\ rpc' = "meta_lf"
    /\ UNCHANGED <<kind, opts, widx, cs, cph, csub, checkDone, verified, status, nruns, fs0>>
AfterMeta == IF kind = "NP24" /\ opts.chk THEN "check"
             ELSE IF opts.cmp THEN "compress"
             ELSE IF kind = "NP24" /\ opts.del THEN "delete" ELSE "return"
MetaLF ==
    /\ rpc = "meta_lf"
    /\ fs' = SetAll(fs, "lfm", PSh(kind, opts), "C") /\ rpc' = AfterMeta
    /\ UNCHANGED <<kind, opts, widx, cs, cph, csub, checkDone, verified, status, nruns, fs0>>

\* check_NP24: compares every window, then closes its readers and only then sets check_completed.  When only one shank was
\* split off (`sub`) the reassembled windows differ from the original in the other shanks' channels: the comparison fails,
\* the run ends there ("refused") and nothing is deleted.
\* A second kind of fault (beside the interruption): between the end of the window loop and the verification a shank AP file
\* is damaged (a bad block, a concurrent writer) - the verification exists for this.  It must then refuse whatever window the
\* damage lies in.
Damage ==
    /\ Faults /\ rpc = "check" /\ kind = "NP24"
    /\ \E s \in PSh(kind, opts) : fs[K("ap", s)] \in {"C", "Q"} /\ fs' = Set1(fs, K("ap", s), "P")
    /\ UNCHANGED <<kind, opts, rpc, widx, cs, cph, csub, checkDone, verified, status, nruns, fs0>>
Damaged == \E s \in PSh(kind, opts) : fs[K("ap", s)] # DoneSt(opts)
Check ==
    /\ rpc = "check"
    /\ IF opts.sub \/ Damaged
       THEN fs' = fs /\ Finish("refused")
       ELSE rpc' = "check_closing" /\ UNCHANGED <<kind, fs, opts, widx, cs, cph, csub, checkDone, verified, status, nruns, fs0>>
CheckClosing ==
    /\ rpc = "check_closing"
    /\ checkDone' = TRUE /\ verified' = TRUE
    /\ rpc' = (IF opts.cmp THEN "compress" ELSE IF opts.del THEN "delete" ELSE "return")
    /\ UNCHANGED <<kind, fs, opts, widx, cs, cph, csub, status, nruns, fs0>>

\* compress_NP24 / compress_NP21: per shank, AP then LF: [unlink stale .cbin if overwrite] compress, unlink .bin
\* NP2.1 first compresses the original in place (csub "orig" / "origrm") when it is not compressed yet.
\* The cursor (cs, cph, csub) is positioned by Begin.
BinKey == IF cph = "ap" THEN K("ap", cs) ELSE K("lf", cs)
CbinKey == IF cph = "ap" THEN K("apc", cs) ELSE K("lfc", cs)
AfterCompress == IF kind = "NP24" /\ opts.del THEN "delete" ELSE "return"
CompressOrig ==
    /\ rpc = "compress" /\ csub = "orig"
    /\ fs' = Set1(fs, "origc", "C") /\ csub' = "origrm"
    /\ UNCHANGED <<kind, opts, rpc, widx, cs, cph, checkDone, verified, status, nruns, fs0>>
CompressOrigRm ==
    /\ rpc = "compress" /\ csub = "origrm"
    /\ fs' = Set1(fs, "orig", "A") /\ csub' = (IF opts.ow THEN "stale" ELSE "comp")
    /\ opts' = [opts EXCEPT !.cb = TRUE]             \* the object now points to the .cbin (ap_file, sr)
    /\ UNCHANGED <<kind, rpc, widx, cs, cph, checkDone, verified, status, nruns, fs0>>
StaleNow == csub = "stale"
UnlinkStale ==         \* only when overwrite
    /\ rpc = "compress" /\ StaleNow /\ opts.ow
    /\ (Variant # "orig" \/ fs[CbinKey] # "A")
    /\ fs' = Set1(fs, CbinKey, "A") /\ csub' = "comp"
    /\ UNCHANGED <<kind, opts, rpc, widx, cs, cph, checkDone, verified, status, nruns, fs0>>
UnlinkStaleRaises ==   \* before the fix: FileNotFoundError when there is no stale file
    /\ rpc = "compress" /\ StaleNow /\ opts.ow
    /\ Variant = "orig" /\ fs[CbinKey] = "A"
    /\ fs' = fs /\ Finish("raised")
CompressFile ==
    /\ rpc = "compress" /\ csub = "comp"
    /\ fs' = Set1(fs, CbinKey, fs[BinKey]) /\ csub' = "rmbin"        \* lossless: a partial conversion stays one
    /\ UNCHANGED <<kind, opts, rpc, widx, cs, cph, checkDone, verified, status, nruns, fs0>>
UnlinkBin ==
    /\ rpc = "compress" /\ csub = "rmbin"
    /\ fs' = Set1(fs, BinKey, "A")
    /\ IF cph = "ap"
       THEN cph' = "lf" /\ cs' = cs /\ csub' = (IF opts.ow THEN "stale" ELSE "comp") /\ rpc' = rpc
       ELSE IF kind = "NP24" /\ (cs + 1) \in PSh(kind, opts)
            THEN cph' = "ap" /\ cs' = cs + 1 /\ csub' = (IF opts.ow THEN "stale" ELSE "comp") /\ rpc' = rpc
            ELSE cph' = cph /\ cs' = cs /\ csub' = "done" /\ rpc' = AfterCompress
    /\ UNCHANGED <<kind, opts, widx, checkDone, verified, status, nruns, fs0>>

\* delete_NP24 (entered only when delete_original is set)
Delete ==
    /\ rpc = "delete"
    /\ fs' = (IF checkDone /\ opts.del /\ (Variant # "fixed" \/ ~opts.part)
              THEN (IF opts.cb THEN Set1(fs, "origc", "A") ELSE Set1(fs, "orig", "A"))      \* the file that was handed over
              ELSE fs)
    /\ rpc' = "return"
    /\ UNCHANGED <<kind, opts, widx, cs, cph, csub, checkDone, verified, status, nruns, fs0>>
Return == /\ rpc = "return" /\ fs' = fs /\ Finish("1")

\* sub-steps of compress_file before its rename (temporary file, chunks, header, check: module System) do not change
\* any file this module tracks
Stutter == UNCHANGED vars

\* an interruption (exception, kill) after any step of a run
Crash == /\ rpc \notin {"idle"} /\ fs' = fs /\ Finish("crashed")

Step == Prepare \/ Window \/ Close \/ MetaAP \/ MetaLF \/ Damage \/ Check \/ CheckClosing \/ CompressOrig
        \/ CompressOrigRm \/ UnlinkStale \/ UnlinkStaleRaises \/ CompressFile \/ UnlinkBin \/ Delete \/ Return
Next == (\E o \in Opts : Begin(o)) \/ (\E ow \in BOOLEAN : BeginReuse(ow)) \/ Step \/ Crash
Spec == Init /\ [][Next]_vars

-----------------------------------------------------------------------------
(* property layer *)
ShankAPComplete(f, s) == f[K("ap", s)] = "C" \/ f[K("apc", s)] = "C"
\* the original samples stay recoverable byte for byte
RecoverableP(k, f) == OrigPresent(f) \/ (k = "NP24" /\ \A s \in Sh : ShankAPComplete(f, s))
\* the original disappears only after verification (NP2.4) / after it has been compressed in place (NP2.1);
\* cd = "the output now on disk has been verified against the original" (by the run that wrote it)
DeleteGuardP(k, f, g, cd) ==
    /\ (k = "NP24" /\ OrigPresent(f) /\ ~OrigPresent(g)) => (cd /\ \A s \in Sh : ShankAPComplete(g, s))
    /\ (k # "NP24") => (OrigPresent(f) => OrigPresent(g))
    /\ (f["orig"] = "C" /\ g["orig"] # "C" /\ k = "NP21") => g["origc"] = "C"
OutputsExist(k, o, f) == IF k = "NP24" THEN \A s \in PSh(k, o) : f[K("dir", s)] # "A" ELSE f["lf0"] # "A" \/ f["lfc0"] # "A"
CompleteSet(k, o, f) ==
    \A s \in PSh(k, o) :
        /\ f[K("lfm", s)] = "C"
        /\ (k = "NP24" => f[K("apm", s)] = "C")
        /\ IF o.cmp THEN /\ f[K("lfc", s)] = DoneSt(o) /\ f[K("lf", s)] = "A"
                         /\ (k = "NP24" => (f[K("apc", s)] = DoneSt(o) /\ f[K("ap", s)] = "A"))
           ELSE f[K("lf", s)] = DoneSt(o) /\ (k = "NP24" => f[K("ap", s)] = DoneSt(o))
\* outcome of a finished run: st = its status, b / e = directory at its begin / end
OutcomeP(k, o, st, b, e) ==
    /\ st # "raised"                                                   \* no failure nobody injected
    /\ st = "refused" => (o.chk /\ k = "NP24" /\ (o.sub \/ \E s \in PSh(k, o) : e[K("ap", s)] \notin {"C", "Q"}))   \* the verification fails only when it has to
    /\ (k = "NP1") => (st \in {"m1", "crashed"} /\ e = b)
    /\ (k = "split") => (st \in {"0", "crashed"} /\ e = b)
    /\ st = "0" => e = b                                                  \* "did nothing" means nothing changed
    /\ (k \in {"NP24", "NP21"} /\ ~o.ow /\ OutputsExist(k, o, b) /\ st # "crashed") => st = "0"
    /\ (k \in {"NP24", "NP21"} /\ st = "1") => CompleteSet(k, o, e)
    /\ (k \in {"NP24", "NP21"} /\ o.ow /\ st \notin {"crashed", "refused"}) => st = "1"     \* a forced re-run completes from any state

Recoverable == RecoverableP(kind, fs)
DeleteGuard == [][DeleteGuardP(kind, fs, fs', verified')]_vars
Outcome == [][(rpc # "idle" /\ rpc' = "idle") => OutcomeP(kind, opts, status', fs0, fs')]_vars
TypeOK == fs \in [Keys -> {"A", "P", "C", "Q"}]
=============================================================================
