------------------------------ MODULE NP2Split ------------------------------
(***************************************************************************)
(* C03 / C12 - neuropixel.NP2Converter: the window loop that writes, per    *)
(* shank, the AP stream (all samples) and the LF stream (low-pass +         *)
(* decimation by RATIO), driven by the same WindowGenerator as C17.         *)
(*                                                                         *)
(* The files are sequences of *tokens*: an AP row holds token t = the       *)
(* original sample index it was copied from; an LF row holds the AP sample  *)
(* index at which the filtered trace was picked.  (The harness writes the   *)
(* sample counter into the sync channel, so the tokens can be read off the  *)
(* real files.)                                                             *)
(*                                                                         *)
(* ns is the number of samples the run PROCESSES: the whole recording, or   *)
(* its first `nsamples` (init_params), or the range [offset, offset + ns)    *)
(* of the NP2.1 path; tokens are positions inside that range (the harness    *)
(* re-bases what it reads off the sync column and judges the files against   *)
(* that range of the original).                                              *)
(*                                                                         *)
(* Implementation layer: Construct / YieldFirst / YieldNext / Stop of       *)
(* Windows, each window followed by the kept-range computation of           *)
(* `_ind2save` (taper margins, first/last window) for both streams.         *)
(***************************************************************************)
EXTENDS Windows

CONSTANTS RATIO,     \* AP/LF sampling ratio (code: 12)
          OV,        \* samples_overlap (code: 576); samples_taper = OV / 4
          NSs, Ws    \* lengths and window sizes explored

VARIABLES ap,        \* AP file of a shank: sequence of tokens
          lf,        \* LF file: sequence of tokens
          edgeok     \* every LF token was taken >= 2*TAP inside its window unless at a file edge

svars == <<vars, ap, lf, edgeok>>
TAP == OV \div 4

\* chunk[:, lo:hi] of `_ind2save` for a window [f, l) with generator index i, for ratio r, as source positions
\* inside the window (in units of r samples)
KeptLo(i, r) == IF i = 0 THEN 0 ELSE (TAP * 2) \div r
KeptHi(i, r) == IF i = nwin - 1 THEN w \div r ELSE (w - TAP * 2) \div r
Range(a, b) == IF a >= b THEN <<>> ELSE [j \in 1..(b - a) |-> a + j - 1]
APRows(f, l, i) == LET len == l - f IN
                   [j \in DOMAIN Range(KeptLo(i, 1), Min(KeptHi(i, 1), len)) |-> f + Range(KeptLo(i, 1), Min(KeptHi(i, 1), len))[j]]
LFRows(f, l, i) == LET len == CeilDiv(l - f, RATIO)             \* chunk[:, ::RATIO]
                       r == Range(KeptLo(i, RATIO), Min(KeptHi(i, RATIO), len))
                   IN [j \in DOMAIN r |-> f + r[j] * RATIO]

SInit ==
    /\ ns \in NSs /\ w \in Ws /\ ov = OV
    /\ w % RATIO = 0 /\ OV % RATIO = 0 /\ TAP % RATIO = 0 /\ ov < w        \* the asserts of init_params
    /\ pc = "new" /\ first = -1 /\ last = -1 /\ iw = -1 /\ nwin = 0 /\ pfirst = -1 /\ plast = -1
    /\ ap = <<>> /\ lf = <<>> /\ edgeok = TRUE

SConstruct == Construct /\ UNCHANGED <<ap, lf, edgeok>>
SWindow ==
    /\ (YieldFirst \/ YieldNext)
    /\ ap' = ap \o APRows(first', last', iw')
    /\ lf' = lf \o LFRows(first', last', iw')
    /\ edgeok' = (edgeok /\ \A j \in DOMAIN LFRows(first', last', iw') :
                      LET t == LFRows(first', last', iw')[j] IN
                      /\ (t - first' >= 2 * TAP \/ first' = 0)
                      /\ (last' - t > 2 * TAP \/ last' = ns))
SStop == Stop /\ UNCHANGED <<ap, lf, edgeok>>
SNext == SConstruct \/ SWindow \/ SStop
SSpec == SInit /\ [][SNext]_svars

-----------------------------------------------------------------------------
(* property layer, parameterised by the observed files *)
IsIdentityPrefix(s) == \A j \in DOMAIN s : s[j] = j - 1
\* C03: the AP stream of a shank holds every original sample, in order, once
APPrefixP(a) == IsIdentityPrefix(a)
APCompleteP(a) == pc = "done" => Len(a) = ns
\* C12: the LF stream holds ceil(ns / RATIO) samples picked at 0, RATIO, 2 RATIO, ... whatever the window size
LFTokensP(l) == \A j \in DOMAIN l : l[j] = (j - 1) * RATIO
LFCompleteP(l) == pc = "done" => Len(l) = CeilDiv(ns, RATIO)
\* C12: no LF sample comes from the tapered margin of a window (the discrete content of "independent of windowing")
EdgeP(e) == e

APPrefix == APPrefixP(ap)
APComplete == APCompleteP(ap)
LFTokens == LFTokensP(lf)
LFComplete == LFCompleteP(lf)
LFEdges == EdgeP(edgeok)
=============================================================================
