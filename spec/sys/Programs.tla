------------------------------ MODULE Programs ------------------------------
(***************************************************************************)
(* X03 - user programs over one recording directory (DESIGN.md section 6):  *)
(* sequences of calls of the public file-level API on the same files, each  *)
(* by a fresh object:                                                       *)
(*    NP2Converter(...).process(overwrite)        - the runs of NP2Convert  *)
(*                                                  (any options, possibly  *)
(*                                                  interrupted)            *)
(*    Reader(orig.bin).compress_file(keep)        - UCompress               *)
(*    Reader(orig.cbin).decompress_file(keep)     - UDecompress             *)
(*    NP2Reconstructor(raw, pname, compress).process()  - Reconstruct       *)
(* The module EXTENDS NP2Convert: same directory keys, same run machine;    *)
(* the three other calls are single steps taken between runs.  Their        *)
(* effect on orig / origc is a summary of what C02's Compress module (for   *)
(* the two Reader calls) and the code of NP2Reconstructor say.              *)
(*                                                                         *)
(* There is no listed property about programs.  Property layer (ours):      *)
(*   UserSafe     a Reader call never makes the original unrecoverable      *)
(*   ReconRestores  a reconstruction from complete shank files gives the    *)
(*                original back (class docstring: "reconstruct original ap  *)
(*                file from split files")                                   *)
(*   ReconSafe    a reconstruction never destroys a copy of the original    *)
(*                that was there before it                                  *)
(*   Recoverable  (of NP2Convert) over whole programs                       *)
(* ReconSafe does not hold for the unchanged code: `_reconstruct` opens the *)
(* output - the original's own path - for writing before anything is known  *)
(* about the shank files, so incomplete shank files (left by an interrupted *)
(* overwriting re-run) truncate an original that is still there.  That is   *)
(* the deviation class Hazard: the invariants are Clause \/ hazard.         *)
(***************************************************************************)
EXTENDS NP2Convert

VARIABLE hazard     \* history: a Reconstruct was started on incomplete shank files

pvars == <<vars, hazard>>

UFinish(st) == /\ rpc' = "idle" /\ status' = st /\ nruns' = nruns + 1 /\ fs0' = fs
               /\ UNCHANGED <<kind, opts, widx, cs, cph, csub, checkDone, verified>>

\* Reader(orig.bin).compress_file(keep_original=keep): .cbin_tmp, rename over any existing .cbin, optional unlink (C02)
UCompress(keep) ==
    /\ rpc = "idle" /\ nruns < MaxRuns /\ fs["orig"] = "C"
    /\ fs' = [fs EXCEPT !["origc"] = "C", !["orig"] = IF keep THEN "C" ELSE "A"]
    /\ UFinish("u1") /\ UNCHANGED hazard
\* Reader(orig.cbin).decompress_file(keep_original=keep): mtscomp refuses to overwrite an existing .bin
UDecompress(keep) ==
    /\ rpc = "idle" /\ nruns < MaxRuns /\ fs["origc"] = "C"
    /\ IF fs["orig"] # "A"
       THEN fs' = fs /\ UFinish("raised")
       ELSE fs' = [fs EXCEPT !["orig"] = "C", !["origc"] = IF keep THEN "C" ELSE "A"] /\ UFinish("u1")
    /\ UNCHANGED hazard

\* NP2Reconstructor(raw, pname, compress=cmp).process()
Folders(f) == {s \in Sh : f[K("dir", s)] # "A"}
\* a shank folder the reconstructor can read completely: metadata and exactly complete AP data under whichever name the glob finds
ShankGood(f, s) == /\ f[K("apm", s)] = "C"
                   /\ f[K("ap", s)] \in {"A", "C"} /\ f[K("apc", s)] \in {"A", "C"}
                   /\ (f[K("ap", s)] = "C" \/ f[K("apc", s)] = "C")
ReconGood(f) == Folders(f) = Sh /\ \A s \in Sh : ShankGood(f, s)
\* nothing is touched: no folder / not all folders (status 0) / first folder without metadata or data (raises before the output is opened)
ReconRefuses(f) == \/ Folders(f) # Sh
                   \/ \E s \in Sh : f[K("apm", s)] = "A"
                   \/ \E s \in Sh : f[K("ap", s)] = "A" /\ f[K("apc", s)] = "A"
Reconstruct(cmp) ==
    /\ rpc = "idle" /\ nruns < MaxRuns /\ kind = "NP24"
    /\ IF ReconGood(fs)
       THEN /\ fs' = (IF cmp THEN [fs EXCEPT !["orig"] = "A", !["origc"] = "C"] ELSE [fs EXCEPT !["orig"] = "C"])
            /\ UFinish("1") /\ UNCHANGED hazard
       ELSE \* incomplete input: either refused before the output is opened, or the output path (= the original's) is opened for
            \* writing and left with whatever the incomplete shank files gave; with compress a short result even replaces the .cbin
            /\ \/ fs' = fs /\ (UFinish("0") \/ UFinish("raised")) /\ UNCHANGED hazard
               \/ /\ ~ReconRefuses(fs)
                  /\ \E o1 \in {"P", "A"}, oc \in {fs["origc"], "P"} :
                        fs' = [fs EXCEPT !["orig"] = o1, !["origc"] = oc] /\ fs' # fs
                  /\ (UFinish("1") \/ UFinish("raised"))
                  /\ hazard' = TRUE

PInit == Init /\ hazard = FALSE
PNext == \/ (Next /\ UNCHANGED hazard)
         \/ \E b \in BOOLEAN : UCompress(b) \/ UDecompress(b) \/ Reconstruct(b)
PSpec == PInit /\ [][PNext]_pvars

-----------------------------------------------------------------------------
(* property layer: b / e = directory before / after the call *)
UserSafeP(k, b, e) == RecoverableP(k, b) => RecoverableP(k, e)
ReconRestoresP(b, e, st) == (ReconGood(b) /\ st = "1") => OrigPresent(e)
ReconSafeP(b, e) == /\ (b["orig"] = "C" => e["orig"] = "C" \/ e["origc"] = "C")
                    /\ (b["origc"] = "C" => e["origc"] = "C" \/ e["orig"] = "C")

RecoverableOrHazard == RecoverableP(kind, fs) \/ hazard
ReconSafe == [][(rpc = "idle" /\ rpc' = "idle" /\ nruns' = nruns + 1) => (ReconSafeP(fs, fs') \/ hazard')]_pvars
UserSafe == [][(rpc = "idle" /\ rpc' = "idle" /\ nruns' = nruns + 1 /\ ~hazard') => UserSafeP(kind, fs, fs')]_pvars
ReconRestores == [][(rpc = "idle" /\ rpc' = "idle" /\ status' = "1") => (~ReconGood(fs) \/ OrigPresent(fs'))]_pvars
\* vacuity controls: must be violated
NoHazard == ~hazard
NeverLost == RecoverableP(kind, fs)
=============================================================================
